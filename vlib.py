"""Shared machinery for the /verif checks: builds (Coq, extraction, OCaml, Rust harness against
/repo's current working tree), proof hygiene, running model and implementation, evidence and
violation reporting."""
import hashlib
import json
import os
import re
import subprocess
import sys
import time
import fcntl

ROOT = os.path.dirname(os.path.abspath(__file__))
BUILD = os.path.join(ROOT, ".build")
COQ = os.path.join(ROOT, "coq")
HARNESS = os.path.join(ROOT, "harness")
REPO = "/repo"
GUARD = "cormacrelf_incremental_rs_verif"
NPROC = min(16, os.cpu_count() or 4)

ALLOWED_AXIOMS = set()  # target: every property theorem closed under the global context

TRUSTED_BASE = [
    "Coq 8.16.1 kernel (coqc); vm_compute only for non-vacuity Examples and refutation witnesses",
    "axioms: none (every property theorem prints 'Closed under the global context')",
    "libraries: Coq stdlib, std++ 1.8.0, coq-record-update",
    "extraction: ExtrOcamlBasic only (bool, option, unit, list, prod, sumbool, sumor mapped to OCaml; Z/positive/nat stay inductive); OCaml 4.13.1",
    "hand-written glue: ocaml/*.ml drivers (parsing/printing), Rust harness (harness/), python driver (vlib.py, checks/)",
    "the model is a hand transcription of the Rust source, tied to it only by the correspondence check run here",
]


def log(*a):
    print(*a, file=sys.stderr, flush=True)


def sh(cmd, cwd=None, timeout=3600, env=None, check=True, input=None):
    e = dict(os.environ)
    e["CARGO_NET_OFFLINE"] = "true"
    if env:
        e.update(env)
    p = subprocess.run(cmd, cwd=cwd, shell=isinstance(cmd, str), stdout=subprocess.PIPE,
                       stderr=subprocess.STDOUT, timeout=timeout, env=e, input=input, text=True)
    if check and p.returncode != 0:
        raise BuildError(f"command failed ({p.returncode}): {cmd}\n{p.stdout[-4000:]}")
    return p


class BuildError(Exception):
    pass


class Lock:
    def __init__(self, name):
        os.makedirs(BUILD, exist_ok=True)
        self.path = os.path.join(BUILD, name + ".lock")

    def __enter__(self):
        self.f = open(self.path, "w")
        fcntl.flock(self.f, fcntl.LOCK_EX)
        return self

    def __exit__(self, *a):
        fcntl.flock(self.f, fcntl.LOCK_UN)
        self.f.close()


def tree_hash(paths, exts):
    h = hashlib.sha256()
    for base in paths:
        if os.path.isfile(base):
            files = [base]
        else:
            files = []
            for d, dn, fn in os.walk(base):
                dn[:] = sorted(x for x in dn if x not in ("target", ".git", ".build"))
                for f in sorted(fn):
                    if any(f.endswith(e) for e in exts):
                        files.append(os.path.join(d, f))
        for f in sorted(files):
            h.update(f.encode())
            with open(f, "rb") as fh:
                h.update(fh.read())
    return h.hexdigest()[:16]


# ---------------------------------------------------------------- Coq

HYGIENE_RE = re.compile(
    r"\b(Admitted|admit|Axiom|Axioms|Parameter|Parameters|Conjecture|Conjectures|Abort All|"
    r"Unset Guard Checking|Unset Positivity Checking|Unset Universe Checking|bypass_check|"
    r"Admit Obligations|native_compute)\b|type-in-type|impredicative-set")


def strip_coq_comments(src):
    out, depth, i = [], 0, 0
    while i < len(src):
        if src.startswith("(*", i):
            depth += 1
            i += 2
        elif src.startswith("*)", i) and depth > 0:
            depth -= 1
            i += 2
        else:
            if depth == 0:
                out.append(src[i])
            i += 1
    return "".join(out)


def coq_hygiene():
    """grep the development for anything that declares an axiom or switches off a check"""
    bad = []
    for d, _, fn in os.walk(COQ):
        for f in fn:
            if f.endswith(".v") or f == "_CoqProject":
                p = os.path.join(d, f)
                src = strip_coq_comments(open(p).read())
                # Variable/Hypothesis/Context are only allowed inside sections
                depth = 0
                for ln, line in enumerate(src.split("\n"), 1):
                    if re.match(r"\s*Section\b", line):
                        depth += 1
                    if re.match(r"\s*End\b", line) and depth > 0:
                        depth -= 1
                    if HYGIENE_RE.search(line):
                        bad.append(f"{p}:{ln}: {line.strip()}")
                    if depth == 0 and re.match(r"\s*(Variable|Variables|Hypothesis|Hypotheses|Context)\b", line):
                        bad.append(f"{p}:{ln}: {line.strip()} (outside a section)")
    return bad


def build_coq():
    """full .vo build of the development (make is incremental; no -vos)"""
    with Lock("coq"):
        t = time.time()
        if not os.path.exists(os.path.join(COQ, "Makefile")) or \
                os.path.getmtime(os.path.join(COQ, "Makefile")) < os.path.getmtime(os.path.join(COQ, "_CoqProject")):
            sh("coq_makefile -f _CoqProject -o Makefile", cwd=COQ, timeout=120)
        p = sh(f"timeout 3000 make -j{NPROC}", cwd=COQ, timeout=3100, check=False)
        if p.returncode != 0:
            raise BuildError("coq make failed:\n" + p.stdout[-6000:])
        return time.time() - t


def check_property_file(pid, pinned):
    """Re-compile Properties/<pid>.v to capture Print Assumptions; check the pinned theorem names exist.
    Returns (obligations, discharged, problems)."""
    path = os.path.join(COQ, "theories", "Properties", pid + ".v")
    src = strip_coq_comments(open(path).read())
    problems = []
    names = re.findall(r"\b(?:Theorem|Lemma)\s+(\w+)", src)
    for n in pinned:
        if n not in names:
            problems.append(f"pinned theorem {n} missing from Properties/{pid}.v")
    printed = re.findall(r"Print Assumptions\s+(\w+)", src)
    for n in pinned:
        if n not in printed:
            problems.append(f"no Print Assumptions for {n}")
    with Lock("coq"):
        p = sh(["coqc", "-Q", "theories", "Incr", "-w", "none", path], cwd=COQ, timeout=1800, check=False)
    if p.returncode != 0:
        problems.append("coqc failed on Properties/%s.v: %s" % (pid, p.stdout[-3000:]))
        return len(pinned), 0, problems
    out = p.stdout
    closed = out.count("Closed under the global context")
    axioms = []
    if "Axioms:" in out:
        for blk in out.split("Axioms:")[1:]:
            for line in blk.split("\n")[1:]:
                m = re.match(r"^(\S+)\s*:", line)
                if m:
                    axioms.append(m.group(1))
                elif line.strip() == "" or line.startswith("Closed"):
                    break
    bad_ax = [a for a in axioms if a not in ALLOWED_AXIOMS]
    if bad_ax:
        problems.append("unexpected axioms: " + ", ".join(sorted(set(bad_ax))))
    if closed + (1 if axioms else 0) < len(printed):
        problems.append(f"Print Assumptions: expected {len(printed)} reports, saw {closed} closed")
    discharged = len(pinned) if not problems else 0
    return len(pinned), discharged, problems


# ---------------------------------------------------------------- extraction + OCaml

def build_ocaml(name, extract_v, driver_ml, modname):
    """extract <extract_v> (in .build/ocaml/<name>) and compile <driver_ml> against it"""
    out = os.path.join(BUILD, "ocaml", name)
    os.makedirs(out, exist_ok=True)
    key = tree_hash([os.path.join(COQ, "theories", "Model"), os.path.join(COQ, "extract"),
                     os.path.join(ROOT, "ocaml")], [".v", ".ml"])
    stamp = os.path.join(out, "stamp")
    exe = os.path.join(out, name)
    with Lock("ocaml-" + name):
        if os.path.exists(stamp) and open(stamp).read() == key and os.path.exists(exe):
            return exe
        sh(["coqc", "-Q", os.path.join(COQ, "theories"), "Incr", "-w", "none",
            os.path.join(COQ, "extract", extract_v), "-o", os.path.join(out, extract_v + "o")], cwd=out, timeout=1800)
        sh(f"cp {os.path.join(ROOT, 'ocaml', driver_ml)} .", cwd=out)
        sh(f"ulimit -s unlimited; ocamlfind ocamlopt -w -a -O2 -unsafe -inline 100 {modname}.mli {modname}.ml {driver_ml} -o {name}",
           cwd=out, timeout=1800)
        open(stamp, "w").write(key)
    return exe


# ---------------------------------------------------------------- Rust harness

def build_harness(bins, profile="debug", hooks=False):
    """build harness binaries against /repo's current working tree (cargo decides what is stale)"""
    target = os.path.join(BUILD, "cargo-target" + ("-hooks" if hooks else ""))
    lock_src = os.path.join(REPO, "Cargo.lock")
    with Lock("cargo"):
        sh(f"cp {lock_src} {os.path.join(HARNESS, 'Cargo.lock')}")
        env = {"CARGO_TARGET_DIR": target}
        if hooks:
            env["RUSTFLAGS"] = f"--cfg {GUARD}"
        args = ["cargo", "build", "--offline", "-q"] + sum((["--bin", b] for b in bins), [])
        if profile == "release":
            args.append("--release")
        p = sh(args, cwd=HARNESS, timeout=1800, env=env, check=False)
        if p.returncode != 0:
            raise BuildError("harness build failed:\n" + p.stdout[-6000:])
    return {b: os.path.join(target, profile, b) for b in bins}


def run_lines(exe, lines, timeout=1800, shards=NPROC):
    """feed lines to exe (one result line per input line), sharded over processes"""
    if not lines:
        return []
    shards = max(1, min(shards, len(lines) // 200 + 1))
    chunks = [lines[i::shards] for i in range(shards)]
    procs = []
    for ch in chunks:
        p = subprocess.Popen(["bash", "-c", f"ulimit -s unlimited; exec {exe}"], stdin=subprocess.PIPE,
                             stdout=subprocess.PIPE, stderr=subprocess.DEVNULL, text=True)
        procs.append((p, ch))
    import threading
    outs = [None] * shards

    def work(i, p, ch):
        o, _ = p.communicate("\n".join(ch) + "\n", timeout=timeout)
        outs[i] = o.split("\n")

    ths = [threading.Thread(target=work, args=(i, p, ch)) for i, (p, ch) in enumerate(procs)]
    for t in ths:
        t.start()
    for t in ths:
        t.join()
    res = [None] * len(lines)
    for i, ch in enumerate(chunks):
        o = outs[i] or []
        for j in range(len(ch)):
            res[i + j * shards] = o[j] if j < len(o) else "<no output: process died>"
    return res


# ---------------------------------------------------------------- known findings, evidence, violations

def known_findings(pid):
    p = os.path.join(ROOT, "known_findings.jsonl")
    out = []
    if os.path.exists(p):
        for l in open(p):
            l = l.strip()
            if l:
                j = json.loads(l)
                if j.get("property") == pid:
                    out.append(j)
    return out


def write_replay(pid, obj):
    os.makedirs(os.path.join(ROOT, "replays"), exist_ok=True)
    h = hashlib.sha256(json.dumps(obj, sort_keys=True).encode()).hexdigest()[:12]
    path = os.path.join(ROOT, "replays", f"{pid}-{h}.json")
    json.dump(obj, open(path, "w"), indent=1)
    return os.path.relpath(path, ROOT)


def write_evidence(pid, tier, seed, level, coverage, assumptions, wall, violations):
    os.makedirs(os.path.join(ROOT, "evidence"), exist_ok=True)
    ev = {"property_id": pid, "tier": tier, "seed": seed, "level": level, "coverage": coverage,
          "assumptions": assumptions, "wall_s": round(wall, 2), "violations": violations}
    json.dump(ev, open(os.path.join(ROOT, "evidence", pid + ".json"), "w"), indent=1)


def report_violation(pid, replay_path, found_input):
    line = f"VIOLATION property={pid} replay={replay_path}"
    if not found_input:
        line += " no-failing-input-found"
    print(line, flush=True)


def tier_and_seed(argv):
    tier = os.environ.get("VERIF_TIER", "quick")
    if "--tier" in argv:
        tier = argv[argv.index("--tier") + 1]
    if tier not in ("quick", "thorough"):
        tier = "quick"
    seed = int(os.environ.get("VERIF_SEED", "1") or "1")
    return tier, seed


def proof_stage(pid, pinned):
    """common first stage of every check: hygiene + full build + Print Assumptions.
    Returns (obligations, discharged, problems)."""
    problems = []
    bad = coq_hygiene()
    if bad:
        problems.append("hygiene: " + "; ".join(bad[:5]))
    try:
        build_coq()
    except BuildError as e:
        problems.append(str(e)[-2000:])
        return len(pinned), 0, problems
    ob, di, pr = check_property_file(pid, pinned)
    problems += pr
    tier, _ = tier_and_seed(sys.argv)
    if tier == "thorough" and not problems:
        # the independent checker re-checks the compiled property file and everything it depends on
        problems += coqchk(pid)
    if problems:
        di = 0
    return ob, di, problems


def coqchk(pid):
    """coqchk -o on Properties/<pid>.vo: every dependency re-checked, the axiom list must be empty"""
    try:
        r = subprocess.run(["timeout", "1800", "coqchk", "-silent", "-o", "-Q", "theories", "Incr", "Incr.Properties." + pid],
                           cwd=COQ, capture_output=True, text=True)
    except OSError as e:
        return [f"coqchk could not run: {e}"]
    out = r.stdout + r.stderr
    if r.returncode != 0:
        return ["coqchk failed: " + out[-1500:]]
    m = re.search(r"\* Axioms:\s*(.*?)\n\s*\n", out, re.S)
    if not m or m.group(1).strip() != "<none>":
        return ["coqchk reports axioms: " + (m.group(1).strip()[:500] if m else out[-500:])]
    for label in ("relying on type-in-type", "relying on unsafe (co)fixpoints", "whose positivity is assumed"):
        mm = re.search(re.escape(label) + r":\s*(.*?)\n", out)
        if mm and mm.group(1).strip() != "<none>":
            return [f"coqchk: {label}: {mm.group(1).strip()[:300]}"]
    return []


def pinned_theorems(pid):
    """the theorems Properties/<pid>.v states (names starting with the property id)"""
    path = os.path.join(COQ, "theories", "Properties", pid + ".v")
    if not os.path.exists(path):
        return []
    src = strip_coq_comments(open(path).read())
    return [n for n in re.findall(r"\bTheorem\s+(\w+)", src) if n.startswith(pid + "_")]
