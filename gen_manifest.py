#!/usr/bin/env python3
"""regenerates MANIFEST.json from the table below (run after changing what is claimed)"""
import json, os, re, subprocess
ROOT = os.path.dirname(os.path.abspath(__file__))
props = [json.loads(l) for l in open(os.path.join(ROOT, "properties.jsonl"))]

def pinned(pid):
    p = os.path.join(ROOT, "coq/theories/Properties", pid + ".v")
    if not os.path.exists(p):
        return []
    return [n for n in re.findall(r"\bTheorem\s+(\w+)", open(p).read()) if n.startswith(pid + "_")]

ENGINE_NOTE = ("trusted: Coq kernel, extraction (ExtrOcamlBasic), OCaml/Rust/python glue, the hooks' dump; the engine model E "
               "(coq/theories/Model/{Base,Live,Engine,Api}.v) is a hand transcription of node.rs/state.rs/the heaps/var.rs/"
               "internal_observer.rs/node_update.rs/scope.rs/kind/*.rs tied to the code only by the correspondence run here; "
               "user functions are the pure families of Model/Base.v")
CLAIMS = {
 "C18": dict(engine="coq-maps", text="Coq theorems (closed under the global context): the iterator state machines transcribed from symmetric_fold.rs yield, for all key-sorted maps of any size, exactly the differing keys once in ascending order (borrowed and owned diff), and MergeOnceWith pairs equal keys in global key order; tied to the code by running the extracted model and the real symmetric_fold/incr_merge on the same inputs (exhaustive small domain on all three map types + random).",
             note="trusted: Coq kernel, extraction (ExtrOcamlBasic), OCaml/Rust/python glue, hand transcription of the iterators (checked by correspondence), OrdMap::diff taken as its spec, PartialEq = structural equality"),
}
MAPS_NOTE = ("trusted: Coq kernel, extraction (ExtrOcamlBasic), OCaml/Rust/python glue, hand transcription of the operator closures "
             "(lib.rs, btree_map.rs, im_rc.rs) into Model/MapOps.v (checked by correspondence), OrdMap taken as a sorted map, "
             "map_with_old feeds the closure its previous output and re-runs it when the input changed (C01/C06)")
CLAIMS["C15"] = dict(engine="coq-maps", note=MAPS_NOTE, text="Coq theorems (closed under the global context) over the step functions transcribed from the crate: for every user function and all key-sorted maps of any size, a recompute of incr_filter_mapi (hence incr_map/incr_mapi/incr_filter_map), incr_unordered_fold (invertible add/remove, optional update agreeing with remove-then-add, optional revert-to-init), incr_partition_mapi and incr_merge from an in-sync old pair yields the plain definition on the new input, and therefore so does every output over ANY sequence of inputs (which is why unobserved periods do not matter); tied to the code by running the extracted steps and the real operators (BTreeMap, Rc<BTreeMap>, OrdMap) on the same edit sequences with observe/unobserve periods, plus an oracle computing the plain definitions.")
CLAIMS["C17"] = dict(engine="coq-maps", note=MAPS_NOTE, text="Coq theorems (closed under the global context): the user function of incr_(filter_)map(i) is invoked exactly on the added/changed keys, once each in key order, never on an unchanged key (except (re)initialisation, which visits every key once); the add/remove/update functions of incr_unordered_fold only on keys whose presence or value differs; the call log is part of the step functions' result and is compared with the instrumented real operators on generated edit sequences, plus an oracle on the crate's (round, key, role) log. For the per-key graph operators (incr_mapi_ etc.) the work clause — the user's per-key function is built once per added key, never again for a key that stays — is evaluated on the crate's invocation log by the oracle of the C16 check.")
ENGINE = {
 "C01": "reads of in-use observers after every completed stabilise, model vs crate, plus a from-scratch reference evaluator over the history's expression trees",
 "C02": "per-stabilise invocation multisets (inv/foldcall/bindrun/rec) in both build profiles, plus the oracle: at most one call per node and arguments equal to the inputs' end-of-stabilise values read from the state dump",
 "C03": "bind runs, invocations, invalidations, reads and callbacks in both build profiles, plus the oracle: no node of a superseded bind run is ever invoked again, such nodes and their observed dependants are invalid",
 "C04": "result class (ok / which panic) of every op in debug and release builds over four history streams including handle drops in any order; oracle: no panic at all on well-formed histories",
 "C05": "per-stabilise invocations and stats, plus the oracle: every computed node lies in the dependency cone of an observer live for that call (cone at start or at end)",
 "C06": "per-stabilise ordered invocation and cutoff-call logs under random cutoff assignment (default, Never, Always, fn, boxed) to every kind of node including vars, plus the oracle on the crate's timestamps (re-invoked only if an input was stamped since the last run; a stamped input re-invokes every needed dependant in the same stabilise; function cutoffs see (old, new); Always freezes, Never always stamps)",
 "C07": "every read result between actions and from inside closures, plus the oracle: reads do not move between stabilises, new observers are NeverStabilised, values are the snapshot values",
 "C08": "returns of get/replace/replace_with, the values every reader function saw, effect logs of closures and handlers, is_stable, plus a python write-machine oracle (immediate outside stabilise, deferred and composed inside node functions, applied at the end, immediate in handlers)",
 "C09": "per-subscription callback sequences, plus the oracle: Initialised once, Changed exactly on a changed value, nothing after unsubscribe/disallow/drop",
 "C10": "results of read/subscribe/unsubscribe/state-unsubscribe over lifecycle-heavy histories, plus the lifecycle automaton as oracle",
 "C12": "liveness of every created node after every op (Weak::upgrade in the hook dump vs the model's reference-counting collection) on histories that drop node/var/observer handles in random orders and finally everything, plus the oracle (after the last stabilise every node is released, every closure dropped, no panic or abort)",
 "C13": "fault enumeration: a panic injected at every individual user-function invocation (node, fold, bind, cutoff functions and update handlers) of every stabilise of every generated history, followed by reads, a second stabilise and dropping everything; whole traces compared, plus the oracle (reads refused or fully propagated, second stabilise refuses, drops do not panic or abort)",
 "C19": "limit / reconfiguration / cycle / nested-stabilise / cross-state histories in both build profiles with the full state compared after every op, plus the oracle (HeightLimit exactly when the graph height exceeds the limit in force, set_max_height_allowed exact, cycles/nesting/foreign nodes panic with their diagnostic, handles droppable afterwards)",
 "C14": "reads, change-callback / recompute / observability-callback logs and the full state dump (children vectors, index cells, invalid-children counters) on histories where the dependencies of an expert node are added and removed from the functions of its own children (join / bind / dynamic-sum idiom with shared, duplicate and invalidatable children), with static dependencies with and without callbacks, make_stale, invalidate, unobserve / re-observe and dependencies added from top level after the node ran, in both build profiles; oracle: no panic, observed values equal the reference sum (for the callback-fed flavour this is the callback-completeness clause), at most one recompute per stabilise and exactly one after make_stale, invalid only if a kept dependency is invalid or invalidate was called, invalidate reaches the dependants",
 "C16": "reads of the operator output, the per-key function's invocation log, node function calls, invalidations and the full state dump (per-key expert nodes, their edges and index cells, the result node's children) for incr_mapi_ and incr_mapi_cutoff on BTreeMap and OrdMap inputs, with a per-key function that is a pure map, a map2 with an outer variable, a bind on the value, a function ignoring its input, one returning a shared pre-existing node, a chain; random edits of the input map, writes to the other variables, unobserve / re-observe, both build profiles; oracle: no panic, the observed output equals the per-entry computation on the current input. The filter flavours (incr_filter_mapi_, _cutoff) share the generic implementation and differ only in the Option projection of the callback; they are not exercised",
 "C20": "results of every memoised call, the underlying function's invocation log, bind runs, invalidations, reads and the full state dump (scope of every node) on histories that call memoised functions from top level and from (nested) bind closures, drop the returned handles, re-run the binds and stabilise, plus a scripted family where weak_memoize_fn itself is called inside a bind closure; oracle: a key whose node is still allocated returns that node without invoking the function, a freed key invokes it again, nodes created at top level carry the creation scope, observed values stay valid and equal the reference after bind re-runs",
 "C11": "the full engine state (hook dump) after every single op, model vs crate, plus the audit (edges symmetric with matching indices, heights, heap = necessary and stale once each, counters, handler counts) evaluated on the crate's dumps",
}
# what the theorems of each engine property cover, and what is decided by the correspondence run + oracle only
SCOPE = {
 "C02": "Proved for every history and both build profiles: no timestamp (recomputed_at, changed_at, set_at) is ever later than the stabilisation number; recompute_one stamps its node with that number before anything else and nothing moves the stamp within the same stabilisation; hence a node that has been recomputed in a stabilisation is not stale from then until the propagation phase ends (an expert node only on an explicit make_stale / edge change), i.e. the staleness rule never asks for a second invocation. Not proved: that the heap releases nodes in an order in which every input already has its final value (height order under dynamic rewiring), and the invocation counts themselves — per-stabilisation invocation log compared with the crate + from-scratch oracle",
 "C03": "Proved for all states/fuel: once a bind's left-hand side changed, recomputing its lhs-change node leaves every node created by the previous run invalid (or freed); invalidity is permanent; an invalid node is never given to its function (recompute panics instead). Not proved: the scheduling half (no node of the old run is recomputed before the lhs-change node ran) — decided by the correspondence on the ordered recompute log plus the oracle",
 "C04": "Proved for every history of a debug build (any operations in any order, closures with any effects, injected panics, misuse): no operation ever panics inside the recompute heap — `node was not in recompute heap` and the two out-of-bounds queue reads are unreachable — via the heap's representation invariant (C11) and a judgment that tracks which panic tags a computation can raise from a consistent state, generated for every engine function. Not proved: the absence of every other panic on well-formed programs, and release builds — outcome class of every operation compared with the crate in both profiles + oracle",
 "C06": "Proved: the three built-in cutoffs, (old,new) argument order of function cutoffs, a suppressed result leaves changed_at alone and an unsuppressed one stamps it, staleness = some input stamped since the last run. Not proved: that every stale needed node is actually recomputed in the same stabilise (heap invariant) — correspondence + oracle",
 "C07": "Proved for all operations other than stabilise (and the expert API's graph surgery): no observer's read moves, new observers read NeverStabilised, reads during stabilise are refused, the status is constant during propagation. The snapshot clause (values = from-scratch evaluation) is C01's",
 "C08": "Proved: the write machine (immediate outside stabilise, deferred and composed in program order inside, applied at the end), readers see the pre-stabilise value during propagation. Fully covered by theorems",
 "C09": "Proved: the handler table (which previous/current pair delivers what), Initialised first and at most once, nothing after Invalidated, Changed only when the node changed this stabilise and never lost. Not proved: that the node is queued for its handlers whenever it changed (engine invariant) — correspondence + oracle",
 "C10": "Proved: the observer lifecycle automaton as a refinement of the engine's observer operations, and the frame (other observers unaffected). Fully covered by theorems",
 "C11": "Proved as an invariant of every reachable state of debug builds (induction over arbitrary operation sequences, panicking operations included): a node is in queue h of the recompute heap exactly when its height_in_recompute_heap cell says h, and no queue lists a node twice — the heap's five operations proved by hand, every other engine function through the generated frame. Not proved: the other audit clauses (edge symmetry with matching indices, heights above the children's, heap = necessary and stale nodes, counters, handler counts) and release builds (where the heap's preconditions are not asserted) — full-state correspondence after every operation + audit oracle",
 "C12": "Proved about the ownership graph of the model: after a collection nothing unreferenced survives, no live object references a freed one, held objects survive, release does not change reads. The ownership graph itself (which field holds which strong reference) is tied to the crate by comparing Weak::upgrade of every node after every op",
 "C13": "Proved: any failing stabilise leaves the status non-NotStabilising, a further stabilise refuses, the poison is permanent over any operation sequence, reads after a propagation panic are refused. Dropping everything afterwards without panic is decided by the fault enumeration on the crate",
 "C14": "Proved: the children vector and the edges' index cells stay consistent through add_dependency and remove_dependency (duplicates and invalid children included), no other engine function writes them, callback delivery on linking (exactly when the node has run and the child has a value), no unwrap on a child without a value. Not proved: the value clause (node = reference combinator after every stabilise) and callback completeness over whole stabilisations — correspondence + oracle",
 "C16": "Proved: the difference the model's map_cyclic closure iterates over is exactly the keys whose lookup differs between the previous and the new input, each once (tied to the real symmetric_fold by C18); after a successful pass the remembered previous input is the new input, and nothing else in the engine writes it. Not proved: that the accumulator equals the per-entry computation after every stabilise (this needs the whole propagation invariant) — correspondence + oracle",
 "C19": "Proved: the height limit is exact in set_height (limit in force accepted, limit+1 refused with the diagnostic), new_with_height and set_max_height_allowed give exactly N, reconfiguration below the seen height is refused, nested stabilise panics from closures and from top level, a cycle closed through adjust_heights is reported. Not proved: that adjust_heights computes the true longest-path height (so 'exactly when the graph height exceeds N') — correspondence + oracle",
 "C20": "Proved: a live key returns the same node with the state untouched, a second call shares the first's node, a dead or new key runs the function in the creation scope and restores the caller's scope, every node a memoised call creates belongs to a scope in which weak_memoize_fn was called (top-level functions create top-level nodes, from whatever scope they are called). The liveness notion (weak upgrade) is the model's collection, tied to the crate by the dump comparison",
}
checks = []
for p in props:
    pid = p["id"]
    th = pinned(pid)
    if pid in CLAIMS:
        c = CLAIMS[pid]
        cat, text, note, eng = "proof", c["text"], c["note"], c["engine"]
    elif pid in ENGINE:
        eng = "coq-engine"
        if th:
            cat = "proof"
            text = ("Coq theorems about the engine model E (%s) checked on every run with Print Assumptions, and the model tied to the crate by "
                    "running the extracted model and the real library on the same generated histories: %s. Scope of the theorems: %s."
                    % (", ".join(th), ENGINE[pid], SCOPE.get(pid, "see Properties/%s.v" % pid)))
        else:
            cat = "other"
            text = ("Correspondence of the executable Gallina engine model E (extracted to OCaml) with the crate on generated histories: %s. "
                    "No Coq theorem is claimed for this property yet; the check reports a violation when model and crate disagree on this "
                    "projection or when the oracle finds a failing history." % ENGINE[pid])
        note = ENGINE_NOTE
    else:
        continue
    checks.append(dict(property_id=pid, quick_cmd=f"./verify check {pid} --tier quick", thorough_cmd=f"./verify check {pid} --tier thorough",
                       evidence_file=f"evidence/{pid}.json", replay_cmd_template="cat {path}", engine=eng,
                       level_claimed=dict(category=cat, text=text, design_ref=f"DESIGN.md §5 {pid}"), level_note=note,
                       technique="machine-checked proof in Coq (model theorems) + model/implementation correspondence" if cat == "proof"
                       else "Gallina model/implementation correspondence + oracle (Coq theorems pending)"))
claimed = {c["property_id"] for c in checks}
hooks_commit = subprocess.run("git -C /repo log --format=%h --grep='verif hooks' -n 5", shell=True, capture_output=True, text=True).stdout.split()
m = dict(version=1, setup_cmd="./verify setup",
  hooks=dict(guard="cormacrelf_incremental_rs_verif", enable='RUSTFLAGS="--cfg cormacrelf_incremental_rs_verif" (set by vlib.build_harness(hooks=True))',
             baseline_off_cmd="cd /repo && cargo test --workspace --no-fail-fast --offline", source_commits=hooks_commit, add_only=True),
  engines=[dict(name="coq-maps", path="coq/theories/Model/SymDiff.v", serves_properties=["C15","C17","C18"], kind_free_text="Gallina models of the merge iterators, symmetric diff and diff-based map operators + proofs; extracted to OCaml and compared with the real crate"),
           dict(name="coq-engine", path="coq/theories/Model/Engine.v", serves_properties=sorted(ENGINE), kind_free_text="faithful executable Gallina model of the engine (nodes, heaps, binds, observers, vars, Rc/Weak liveness), extracted to OCaml; Rust harness interprets the same history DSL on the real crate with state dumps from cfg-guarded hooks")],
  checks=checks,
  not_applicable=[dict(property_id=p["id"], reason="not claimed: the per-key operators build one expert node per key from inside a map_cyclic closure; the engine model does not yet have map-valued nodes, expert nodes created inside closures or a transcription of these operator closures (DESIGN.md §11.8). The expert layer they rest on is modelled and checked under C14. The technique applies; the model is not built, so no check is registered rather than a weaker technique substituted") for p in props if p["id"] not in claimed],
  notes="see DESIGN.md; known_findings.jsonl lists recorded and repaired defects")
json.dump(m, open(os.path.join(ROOT, "MANIFEST.json"), "w"), indent=1)
print("claimed:", sorted(claimed))
