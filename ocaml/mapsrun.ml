(* Driver for the extracted map-operator models: reads one command per line on stdin,
   prints one result line per command.  Hand-written glue (trusted): parsing, printing,
   int <-> extracted Z conversion. *)
open Mapmodel

let rec pos_of_int n = if n = 1 then XH else if n land 1 = 0 then XO (pos_of_int (n lsr 1)) else XI (pos_of_int (n lsr 1))
let z_of_int n = if n = 0 then Z0 else if n > 0 then Zpos (pos_of_int n) else Zneg (pos_of_int (-n))
let rec int_of_pos = function XH -> 1 | XO p -> 2 * int_of_pos p | XI p -> 2 * int_of_pos p + 1
let int_of_z = function Z0 -> 0 | Zpos p -> int_of_pos p | Zneg p -> - (int_of_pos p)

(* "{1:10 2:20}" *)
let parse_map s =
  let s = String.trim s in
  let n = String.length s in
  if n < 2 || s.[0] <> '{' || s.[n-1] <> '}' then failwith ("bad map: " ^ s);
  let body = String.trim (String.sub s 1 (n - 2)) in
  if body = "" then [] else
  List.map (fun kv ->
      match String.split_on_char ':' kv with
      | [k; v] -> (z_of_int (int_of_string k), z_of_int (int_of_string v))
      | _ -> failwith ("bad entry: " ^ kv))
    (List.filter (fun x -> x <> "") (String.split_on_char ' ' body))

let show_map m =
  "{" ^ String.concat " " (List.map (fun (k, v) -> Printf.sprintf "%d:%d" (int_of_z k) (int_of_z v)) m) ^ "}"

(* split a line into top-level tokens; maps "{...}" (possibly joined by '/') are single tokens *)
let tokens line =
  let buf = Buffer.create 16 and out = ref [] and depth = ref 0 in
  let flush () = if Buffer.length buf > 0 then (out := Buffer.contents buf :: !out; Buffer.clear buf) in
  String.iter (fun c ->
      if c = '{' then (incr depth; Buffer.add_char buf c)
      else if c = '}' then (decr depth; Buffer.add_char buf c)
      else if (c = ' ' || c = '\t') && !depth = 0 then flush ()
      else Buffer.add_char buf c) line;
  flush (); List.rev !out

let show_diff d =
  if d = [] then "-" else
  String.concat ";" (List.map (fun (k, e) ->
      let k = int_of_z k in
      match e with
      | DLeft v -> Printf.sprintf "L %d %d" k (int_of_z v)
      | DRight v -> Printf.sprintf "R %d %d" k (int_of_z v)
      | DUnequal (v, w) -> Printf.sprintf "U %d %d %d" k (int_of_z v) (int_of_z w)) d)

let show_diff_owned d =
  if d = [] then "-" else
  String.concat ";" (List.map (fun e ->
      match e with
      | DLeft (k, v) -> Printf.sprintf "L %d %d" (int_of_z k) (int_of_z v)
      | DRight (k, v) -> Printf.sprintf "R %d %d" (int_of_z k) (int_of_z v)
      | DUnequal ((k, v), (_, w)) -> Printf.sprintf "U %d %d %d" (int_of_z k) (int_of_z v) (int_of_z w)) d)

let show_keys l = String.concat "," (List.map (fun k -> string_of_int (int_of_z k)) l)
let show_roles l =
  String.concat "," (List.map (fun (r, k) ->
      (match r with RAdd -> "A" | RRemove -> "R" | RUpdate -> "U") ^ string_of_int (int_of_z k)) l)
let b2s b = if b then "1" else "0"

let split_pair s =
  (* "{..}/{..}" *)
  match String.index_opt s '/' with
  | Some i -> (String.sub s 0 i, String.sub s (i + 1) (String.length s - i - 1))
  | None -> failwith ("bad pair: " ^ s)

let steps show_out show_calls = function
  | None -> "OUT-OF-FUEL"
  | Some l ->
    String.concat " | " (List.map (fun ((out, c), calls) ->
        Printf.sprintf "%s c=%s calls=%s" (show_out out) (b2s c) (show_calls calls)) l)

let handle line =
  match tokens line with
  | [] -> ""
  | "symdiff" :: a :: b :: [] ->
    (match z_symmetric_diff (parse_map a) (parse_map b) with
     | None -> "OUT-OF-FUEL" | Some d -> show_diff d)
  | "symdiffowned" :: a :: b :: [] ->
    (match z_symmetric_diff_owned (parse_map a) (parse_map b) with
     | None -> "OUT-OF-FUEL" | Some d -> show_diff_owned d)
  | "fm" :: id :: ms ->
    steps show_map show_keys (z_fm_run (z_of_int (int_of_string id)) (List.map parse_map ms))
  | "uf" :: id :: upd :: rev :: init :: ms ->
    steps (fun z -> string_of_int (int_of_z z)) show_roles
      (z_uf_run (z_of_int (int_of_string id)) (upd = "1") (rev = "1") (z_of_int (int_of_string init))
         (List.map parse_map ms))
  | "mg" :: id :: ms ->
    steps show_map show_keys
      (z_mg_run (z_of_int (int_of_string id))
         (List.map (fun s -> let (a, b) = split_pair s in (parse_map a, parse_map b)) ms))
  | "pt" :: id :: ms ->
    steps (fun (l, r) -> show_map l ^ "/" ^ show_map r) show_roles
      (z_pt_run (z_of_int (int_of_string id)) (List.map parse_map ms))
  | _ -> failwith ("bad command: " ^ line)

let () =
  try
    while true do
      let line = input_line stdin in
      print_endline (handle line)
    done
  with End_of_file -> ()
