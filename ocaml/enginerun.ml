(* Driver for the extracted engine model: parses history files, runs [run_history], prints the
   trace (and state dumps) in the text format shared with the Rust harness.  Hand-written glue. *)
open Enginemodel

let rec pos_of_int n = if n = 1 then XH else if n land 1 = 0 then XO (pos_of_int (n lsr 1)) else XI (pos_of_int (n lsr 1))
let z_of_int n = if n = 0 then Z0 else if n > 0 then Zpos (pos_of_int n) else Zneg (pos_of_int (-n))
let rec int_of_pos = function XH -> 1 | XO p -> 2 * int_of_pos p | XI p -> 2 * int_of_pos p + 1
let int_of_z = function Z0 -> 0 | Zpos p -> int_of_pos p | Zneg p -> - (int_of_pos p)
let rec nat_of_int n = if n <= 0 then O else S (nat_of_int (n - 1))
let rec int_of_nat = function O -> 0 | S n -> 1 + int_of_nat n

(* ---------- tokenizer ---------- *)
let tokenize (s : string) : string list =
  let out = ref [] and buf = Buffer.create 16 in
  let flush () = if Buffer.length buf > 0 then (out := Buffer.contents buf :: !out; Buffer.clear buf) in
  String.iter (fun c ->
      match c with
      | ' ' | '\t' | '\r' -> flush ()
      | '{' | '}' | '|' | ';' | '[' | ']' -> flush (); out := String.make 1 c :: !out
      | c -> Buffer.add_char buf c) s;
  flush (); List.rev !out

exception Parse of string
let fail s = raise (Parse s)
let zi s = try z_of_int (int_of_string s) with _ -> fail ("int expected: " ^ s)
let ni s = try nat_of_int (int_of_string s) with _ -> fail ("nat expected: " ^ s)

let parse_effect (t : string) : effect =
  match String.split_on_char ':' t with
  | ["dropvar"; x] -> EDropVar (ni x)
  | ["set"; x; v] -> ESet (ni x, zi v)
  | ["setarg"; x] -> ESetArg (ni x)
  | ["update"; x; d] -> EUpdate (ni x, zi d)
  | ["modify"; x; d] -> EModify (ni x, zi d)
  | ["replace"; x; v] -> EReplace (ni x, zi v)
  | ["replacewith"; x; d] -> EReplaceWith (ni x, zi d)
  | ["get"; x] -> EGet (ni x)
  | ["read"; o] -> ERead (ni o)
  | ["adddep"; e; h; sl; cb] -> EAddDep (ni e, ni h, ni sl, cb = "1")
  | ["rmdep"; e; sl] -> ERemoveDep (ni e, ni sl)
  | ["swapdep"; e; sl; cb; hs] -> ESwapDep (ni e, ni sl, List.map ni (String.split_on_char ',' hs), cb = "1")
  | ["subscribe"; o; hid] -> ESubscribe (ni o, zi hid)
  | ["unsub"; o; tok] -> EUnsubscribe (ni o, zi tok)
  | ["makestale"; e] -> EMakeStale (ni e)
  | ["invalidate"; e] -> EInvalidateExpert (ni e)
  | ["setmaxheight"; n] -> ESetMaxHeight (zi n)
  | ["stabilise"] -> EStabilise
  | ["panic"] -> EPanic
  | _ -> fail ("effect: " ^ t)

(* "[" eff* "]" *)
let parse_effs toks =
  match toks with
  | "[" :: rest ->
    let rec go acc = function
      | "]" :: rest -> (List.rev acc, rest)
      | t :: rest -> go (parse_effect t :: acc) rest
      | [] -> fail "unterminated effects"
    in go [] rest
  | _ -> fail "effects expected"

let parse_cutoff t =
  match String.split_on_char ':' t with
  | ["eq"] -> CPartialEq | ["never"] -> CNever | ["always"] -> CAlways
  | ["fn"; c] -> CFn (zi c) | ["boxed"; c] -> CBoxed (zi c)
  | ["preserve"; n] -> CPreserve (ni n)
  | _ -> fail ("cutoff: " ^ t)

let parse_operand t =
  if t = "foreign" then OForeign else
  if String.length t >= 2 && t.[0] = 'o' then OOuter (ni (String.sub t 1 (String.length t - 1)))
  else if String.length t >= 2 && t.[0] = 't' then OLate (ni (String.sub t 1 (String.length t - 1)))
  else if String.length t >= 4 && t.[0] = 'l' then
    (match String.split_on_char '.' (String.sub t 1 (String.length t - 1)) with
     | [d; i] -> OLocal (ni d, ni i)
     | _ -> fail ("operand: " ^ t))
  else fail ("operand: " ^ t)

let is_operand t = String.length t >= 2 && (t.[0] = 'o' || t.[0] = 'l' || t.[0] = 't') &&
                   (match t.[1] with '0' .. '9' -> true | _ -> false)

let rec take_operands acc = function
  | t :: rest when is_operand t -> take_operands (parse_operand t :: acc) rest
  | rest -> (List.rev acc, rest)

(* bindfn ::= "{" effs template ("|" template)* "}" ; template ::= (instr ";")* "ret" operand *)
let rec parse_bindfn toks : bindfn * string list =
  match toks with
  | "{" :: rest ->
    let effs, rest = parse_effs rest in
    let rec templates acc rest =
      let t, rest = parse_template [] rest in
      match rest with
      | "|" :: rest -> templates (t :: acc) rest
      | "}" :: rest -> (List.rev (t :: acc), rest)
      | _ -> fail "template separator"
    in
    let ts, rest = templates [] rest in
    (BindFn (effs, ts), rest)
  | _ -> fail "bindfn expected"
and parse_template acc toks =
  match toks with
  | "ret" :: o :: rest -> ((List.rev acc, parse_operand o), rest)
  | _ ->
    let i, rest = parse_instr toks in
    (match rest with
     | ";" :: rest -> parse_template (i :: acc) rest
     | _ -> fail "';' expected")
and parse_instr toks : tinstr * string list =
  match toks with
  | "const" :: v :: rest -> (TConst (zi v), rest)
  | "constlhs" :: rest -> (TConstLhs, rest)
  | "map" :: fid :: rest ->
    let effs, rest = parse_effs rest in
    let args, rest = take_operands [] rest in
    (TMap (zi fid, effs, args), rest)
  | "mapref" :: p :: a :: rest -> (TMapRef (zi p, parse_operand a), rest)
  | "mapold" :: f :: a :: rest -> (TMapWithOld (zi f, parse_operand a), rest)
  | "fold" :: f :: init :: rest ->
    let args, rest = take_operands [] rest in
    (TFold (zi f, zi init, args), rest)
  | "cutoff" :: tg :: c :: rest -> (TCutoff (parse_operand tg, parse_cutoff c), rest)
  | "export" :: o :: rest -> (TExport (parse_operand o), rest)
  | "memocall" :: m :: "lhs" :: rest -> (TMemoCall (ni m, None), rest)
  | "memocall" :: m :: k :: rest -> (TMemoCall (ni m, Some (zi k)), rest)
  | "memonew" :: rest ->
    let f, rest = parse_bindfn rest in
    (TMemoNew f, rest)
  | "bind" :: lhs :: rest ->
    let f, rest = parse_bindfn rest in
    (TBind (parse_operand lhs, f), rest)
  | t :: _ -> fail ("instr: " ^ t)
  | [] -> fail "instr: eof"

(* "{" (k ":" v)* "}" *)
let parse_zmap toks =
  match toks with
  | "{" :: rest ->
    let rec go acc = function
      | "}" :: rest -> (List.rev acc, rest)
      | t :: rest ->
        (match String.split_on_char ':' t with
         | [k; v] -> go ((zi k, zi v) :: acc) rest
         | _ -> fail ("map entry: " ^ t))
      | [] -> fail "unterminated map"
    in
    go [] rest
  | _ -> fail "map expected"

let parse_op (line : string) : op =
  match tokenize line with
  | "varmap" :: rest -> let m, _ = parse_zmap rest in OpVarMap m
  | "setmap" :: x :: rest -> let m, _ = parse_zmap rest in OpSetMap (ni x, m)
  | (("permapi" | "permapiom" | "perfilter" | "perfilterom") as w) :: inp :: c :: rest ->
    let f, rest = parse_bindfn rest in
    if rest <> [] then fail "trailing tokens after permapi";
    OpPerMapi (ni inp, (if c = "-" then None else Some (parse_cutoff c)), f, (w = "perfilter" || w = "perfilterom"))
  | ["var"; v] -> OpVar (zi v)
  | ["pair"; a; b] -> OpPair (zi a, zi b)
  | ["const"; v] -> OpConst (zi v)
  | "map" :: fid :: rest ->
    let effs, rest = parse_effs rest in
    OpMap (zi fid, effs, List.map ni rest)
  | ["mapref"; p; a] -> OpMapRef (zi p, ni a)
  | ["mapold"; f; a] -> OpMapWithOld (zi f, ni a)
  | "fold" :: f :: init :: rest -> OpFold (zi f, zi init, List.map ni rest)
  | ["zip"; a; b] -> OpZip (ni a, ni b)
  | ["dependon"; a; b] -> OpDependOn (ni a, ni b)
  | "bind" :: lhs :: rest ->
    let f, rest = parse_bindfn rest in
    if rest <> [] then fail "trailing tokens after bind";
    OpBind (ni lhs, f)
  | ["cutoff"; n; c] -> OpSetCutoff (ni n, parse_cutoff c)
  | ["observe"; n] -> OpObserve (ni n)
  | ["observeexport"; k] -> OpObserveExport (ni k)
  | ["mapexport"; f; k] -> OpMapExport (zi f, ni k)
  | ["exporthandle"; k] -> OpExportHandle (ni k)
  | ["cloneobs"; o] -> OpCloneObs (ni o)
  | ["dropobs"; o] -> OpDropObs (ni o)
  | ["disallow"; o] -> OpDisallow (ni o)
  | ["read"; o] -> OpRead (ni o)
  | "subscribe" :: o :: hid :: rest ->
    let effs, _ = parse_effs rest in
    OpSubscribe (ni o, { h_id = zi hid; h_effs = effs })
  | "onupdate" :: n :: hid :: rest ->
    let effs, _ = parse_effs rest in
    OpOnUpdate (ni n, { h_id = zi hid; h_effs = effs })
  | ["unsubscribe"; o; s] -> OpUnsubscribe (ni o, ni s)
  | ["stateunsub"; s] -> OpStateUnsubscribe (ni s)
  | ["set"; x; v] -> OpSet (ni x, zi v)
  | ["setpair"; x; a; b] -> OpSetPair (ni x, zi a, zi b)
  | ["update"; x; d] -> OpUpdate (ni x, zi d)
  | ["modify"; x; d] -> OpModify (ni x, zi d)
  | ["replace"; x; v] -> OpReplace (ni x, zi v)
  | ["replacewith"; x; d] -> OpReplaceWith (ni x, zi d)
  | ["get"; x] -> OpGet (ni x)
  | ["stabilise"] -> OpStabilise
  | ["isstable"] -> OpIsStable
  | ["stats"] -> OpStats
  | ["setmaxheight"; n] -> OpSetMaxHeight (zi n)
  | ["dropnode"; h] -> OpDropNode (ni h)
  | ["dropvar"; x] -> OpDropVar (ni x)
  | ["dropexports"] -> OpDropExports
  | ["expert"; m] -> OpExpert (zi m)
  | ["adddep"; e; h; sl; cb] -> OpAddDep (ni e, ni h, ni sl, cb = "1")
  | ["rmdep"; e; sl] -> OpRemoveDep (ni e, ni sl)
  | ["makestale"; e] -> OpMakeStale (ni e)
  | ["invalidateexpert"; e] -> OpInvalidateExpert (ni e)
  | "memonew" :: rest ->
    let f, rest = parse_bindfn rest in
    if rest <> [] then fail "trailing tokens after memonew";
    OpMemoNew f
  | ["memocall"; m; k] -> OpMemoCall (ni m, zi k)
  | ["crashat"; k] -> OpCrashAt (ni k)
  | _ -> fail ("op: " ^ line)

(* ---------- printing ---------- *)
let rec show_val = function
  | VInt z -> string_of_int (int_of_z z)
  | VPair (a, b) -> "(" ^ show_val a ^ "," ^ show_val b ^ ")"
  | VUnit -> "()"
  | VMap m -> "{" ^ String.concat "," (List.map (fun (k, v) -> string_of_int (int_of_z k) ^ ":" ^ string_of_int (int_of_z v)) m) ^ "}"
let show_oval = function Some v -> show_val v | None -> "-"
let show_vals l = "[" ^ String.concat " " (List.map show_val l) ^ "]"
let b2s b = if b then "1" else "0"
let zs z = string_of_int (int_of_z z)
let ns n = string_of_int (int_of_nat n)
let show_nats l = "[" ^ String.concat " " (List.map ns l) ^ "]"
let show_zs l = "[" ^ String.concat " " (List.map zs l) ^ "]"

let show_ptag = function
  | PNestedStabilise -> "NestedStabilise" | PHeightLimit -> "HeightLimit" | PCycle -> "Cycle"
  | PCrossState -> "CrossState" | PSetMaxDuringStabilise -> "SetMaxDuringStabilise"
  | PSetMaxBelowSeen -> "SetMaxBelowSeen" | PScopeNotNecessary -> "ScopeNotNecessary"
  | PRecomputeInvalid -> "RecomputeInvalid" | PNotInRch -> "NotInRch" | PAbandonedWatch -> "AbandonedWatch"
  | PInjected -> "Injected"
  | PInvalidScope -> "InvalidScope"
  | POnlyDuringStabilise -> "OnlyDuringStabilise"
  | PNotAChild -> "NotAChild"
  | PUnwrapNone s -> "UnwrapNone:" ^ zs s | PIndex s -> "Index:" ^ zs s | PBorrow s -> "Borrow:" ^ zs s
  | PAssert s -> "Assert:" ^ zs s | PDebugAssert s -> "Assert:" ^ zs s
  | POverflow s -> "Overflow:" ^ zs s
  | PModelGap s when int_of_z s = 50 -> "HarnessError"       (* call of a memoised function that does not exist *)
  | PModelGap s -> "ModelGap:" ^ zs s

let show_nu = function
  | NUNecessary -> "Initialised" | NUChanged -> "Changed" | NUInvalidated -> "Invalidated"
  | NUUnnecessary -> "Unnecessary"

let show_read = function Inl v -> "v:" ^ show_val v | Inr c -> "e:" ^ zs c

let show_out = function
  | OutUnit -> "ok"
  | OutNode n -> "node " ^ ns n
  | OutObs o -> "obs " ^ ns o
  | OutRead r -> "read " ^ show_read r
  | OutTok (Inl t) -> "tok " ^ zs t
  | OutTok (Inr c) -> "tokerr " ^ zs c
  | OutCode c -> "code " ^ zs c
  | OutVal v -> "val " ^ show_val v
  | OutBool b -> "bool " ^ b2s b
  | OutStats (a, b, c, d, e, f) ->
    Printf.sprintf "stats created=%s changed=%s recomputed=%s invalidated=%s nec=%s unnec=%s"
      (zs a) (zs b) (zs c) (zs d) (zs e) (zs f)

let show_res = function
  | Ok o -> show_out o
  | Panic t -> "panic " ^ show_ptag t
  | OutOfFuel -> "OUT-OF-FUEL"

let show_event = function
  | EvRecompute n -> "rec " ^ ns n
  | EvInv (n, cap, args, r) -> Printf.sprintf "inv %s cap=%s %s -> %s" (ns n) (zs cap) (show_vals args) (show_val r)
  | EvFoldCall (n, acc, x, r) -> Printf.sprintf "foldcall %s %s %s -> %s" (ns n) (show_val acc) (show_val x) (show_val r)
  | EvBindRun (n, gen, lhs) -> Printf.sprintf "bindrun %s gen=%s lhs=%s" (ns n) (zs gen) (show_val lhs)
  | EvCut (_, o, nw, r) -> Printf.sprintf "cut %s %s -> %s" (show_val o) (show_val nw) (b2s r)
  | EvUpd (o, tok, hid, nu, v) -> Printf.sprintf "upd obs=%s tok=%s hid=%s %s %s" (ns o) (zs tok) (zs hid) (show_nu nu) (show_oval v)
  | EvNodeUpd (n, ix, hid, nu, v) -> Printf.sprintf "nodeupd n=%s ix=%s hid=%s %s %s" (ns n) (zs ix) (zs hid) (show_nu nu) (show_oval v)
  | EvEffRead (o, r) ->
    "effread " ^ ns o ^ " " ^ (match r with Inl (Ok v) -> "v:" ^ show_val v | Inl _ -> "?" | Inr c -> "e:" ^ zs c)
  | EvEffGet (x, v) -> Printf.sprintf "effget %s %s" (ns x) (show_val v)
  | EvEffReplace (x, v) -> Printf.sprintf "effreplace %s %s" (ns x) (show_val v)
  | EvInvalidate n -> "invalidate " ^ ns n
  | EvBecameNecessary n -> "nec " ^ ns n
  | EvBecameUnnecessary n -> "unnec " ^ ns n
  | EvMemoFn (m, k) -> Printf.sprintf "memofn %d %d" (int_of_nat m) (int_of_z k)
  | EvEdgeCb (n, e, v) -> Printf.sprintf "edgecb %s %s %s" (ns n) (ns e) (show_val v)
  | EvExpertRun (n, v) -> Printf.sprintf "exrun %s %s" (ns n) (show_val v)
  | EvObsChange (n, b) -> Printf.sprintf "obschange %s %s" (ns n) (b2s b)
  | EvPerKeyFn (pk, k) -> Printf.sprintf "perkeyfn %s %d" (ns pk) (int_of_z k)

let show_cutoff _ = "c"

let nth_opt l n = try Some (List.nth l (int_of_nat n)) with _ -> None

let show_kind (s : state) (x : node) =
  match x.n_kind with
  | KConst _ -> "Const"
  | KVar v ->
    (match nth_opt s.vars v with
     | Some vr -> Printf.sprintf "Var(set_at=%s,pending=%s,value=%s)" (zs vr.v_set_at)
                    (b2s (vr.v_pending <> None)) (show_val vr.v_value)
     | None -> "Var(?)")
  | KMap (_, cs) -> Printf.sprintf "Map%d%s" (List.length cs) (show_nats cs)
  | KMapRef (_, c) -> "MapRef" ^ show_nats [c]
  | KMapWithOld (_, c) -> "MapWithOld" ^ show_nats [c]
  | KFold (_, _, cs) -> "Fold" ^ show_nats cs
  | KBindLhs b ->
    (match nth_opt s.binds b with
     | Some bd -> Printf.sprintf "BindLhs(lhs=%s,rhs=%s,created=%s)" (ns bd.b_lhs)
                    (match bd.b_rhs with Some r -> ns r | None -> "-")
                    (show_nats (List.filter (fun r -> match nth_opt s.nodes r with Some x -> x.n_live | None -> false) bd.b_created))
     | None -> "BindLhs(?)")
  | KBindMain (_, lc) -> "BindMain(lhs_change=" ^ ns lc ^ ")"
  | KExpert x ->
    (match nth_opt s.experts x with
     | Some ex ->
       Printf.sprintf "Expert(children=%s,force_stale=%s,invalid_children=%s,fire_all=%s)"
         (show_nats (List.filter_map (fun e -> match nth_opt s.edges e with Some ed -> Some ed.ed_child | None -> None) ex.ex_children))
         (b2s ex.ex_force_stale) (zs ex.ex_num_invalid) (b2s ex.ex_fire_all)
     | None -> "Expert(?)")

let show_scope (s : state) = function
  | STop -> "T"
  | SBind b ->
    (match nth_opt s.binds b with
     | Some bd ->
       if not bd.b_live then "Bdead"
       else (match nth_opt s.nodes bd.b_lhs_change with
           | Some lc when lc.n_live -> "B" ^ ns bd.b_lhs_change
           | _ -> "B?")
     | None -> "B?")

let dump (s : state) : string list =
  let l1 = Printf.sprintf "status=%s stab=%s rch_len=%s rch_lower=%s nq=%d ahh_len=%s ahh_seen=%s nahh=%d"
      (match s.st_status with NotStabilising -> "N" | Stabilising -> "S" | RunningOnUpdateHandlers -> "R")
      (zs s.stab_num) (zs s.rch_len) (zs s.rch_lower) (List.length s.rch_queues)
      (zs s.ahh_len) (zs s.ahh_max_seen) (List.length s.ahh_queues) in
  let l2 = Printf.sprintf "counters var_sets=%s recomputed=%s created=%s changed=%s nec=%s unnec=%s invalidated=%s active_obs=%s"
      (zs s.num_var_sets) (zs s.num_recomputed) (zs s.num_created) (zs s.num_changed)
      (zs s.num_became_necessary) (zs s.num_became_unnecessary) (zs s.num_invalidated) (zs s.num_active_observers) in
  let l3 = Printf.sprintf "stacks prop_inv=%d has=%d run=%d newobs=%d allobs=%d disallowed=%d setduring=%d deadvars=%d"
      (List.length s.prop_inv) (List.length s.has_stack) (List.length s.run_ouh) (List.length s.new_obs)
      (List.length s.all_obs) (List.length s.disallowed_obs) (List.length s.set_during) (List.length s.dead_vars) in
  let qs = List.mapi (fun h q -> (h, q)) s.rch_queues |> List.filter (fun (_, q) -> q <> []) in
  let l4 = "rch " ^ String.concat " " (List.map (fun (h, q) -> Printf.sprintf "%d:%s" h (show_nats q)) qs) in
  let nodes = List.mapi (fun i (x : node) ->
      if not x.n_live then Printf.sprintf "n %d dead" i else
      let fuel = nat_of_int (List.length s.nodes + 1) in
      Printf.sprintf "n %d %s valid=%s val=%s cutoff=%s rec=%s chg=%s nh=%s parents=%s pix=%s cix=%s h=%s hr=%s ha=%s has=%s fn=%s obs=%d mrdc=%s scope=%s"
        i (show_kind s x) (b2s x.n_valid) (show_oval (node_value fuel s (nat_of_int i)))
        (show_cutoff x.n_cutoff) (zs x.n_recomputed_at) (zs x.n_changed_at) (zs x.n_num_handlers)
        (show_nats x.n_parents) (show_zs x.n_pix_in_child) (show_zs x.n_cix_in_parent)
        (zs x.n_height) (zs x.n_height_in_rch) (zs x.n_height_in_ahh) (b2s x.n_in_has) (b2s x.n_force_necessary)
        (List.length x.n_observers)
        (match x.n_kind with KMapRef _ -> b2s x.n_mapref_did_change | _ -> "-")
        (show_scope s x.n_created_in)) s.nodes in
  let obs = List.filter (fun l -> l <> "") (List.mapi (fun i (o : obs) ->
      if o.o_handles = O then "" else
      Printf.sprintf "o %d %s handlers=%d" i
        (match o.o_state with OCreated -> "Created" | OInUse -> "InUse" | ODisallowed -> "Disallowed" | OUnlinked -> "Unlinked")
        (List.length o.o_handlers)) s.obss) in
  [l1; l2; l3; l4] @ nodes @ obs

(* ---------- main ---------- *)
let run_one (id : string) (maxh : int) (dbg : bool) (dmp : bool) (fuel : int) (lines : string list) =
  Printf.printf "history %s\n" id;
  match (try Stdlib.Ok (List.map parse_op lines) with Parse m -> Stdlib.Error m) with
  | Stdlib.Error m -> Printf.printf "PARSE-ERROR %s\n" m
  | Stdlib.Ok ops ->
    let trace = run_history (nat_of_int fuel) (z_of_int maxh) dbg ops in
    List.iteri (fun i ((r, evs), s) ->
        Printf.printf "op %d %s\n" i (show_res r);
        List.iter (fun e -> Printf.printf "e %s\n" (show_event e)) evs;
        if dmp then List.iter (fun l -> Printf.printf "d %s\n" l) (dump s)) trace

let () =
  let cur = ref None and acc = ref [] in
  let flush () =
    match !cur with
    | None -> ()
    | Some (id, maxh, dbg, dmp, fuel) -> run_one id maxh dbg dmp fuel (List.rev !acc); acc := []
  in
  (try
     while true do
       let line = String.trim (input_line stdin) in
       if line = "" || line.[0] = '#' then ()
       else if String.length line > 8 && String.sub line 0 8 = "history " then begin
         flush ();
         let toks = String.split_on_char ' ' line in
         let get k d = List.fold_left (fun a t ->
             match String.split_on_char '=' t with [k'; v] when k' = k -> int_of_string v | _ -> a) d toks in
         cur := Some (List.nth toks 1, get "max_height" 128, get "debug" 1 = 1, get "dump" 0 = 1, get "fuel" 2000)
       end else acc := line :: !acc
     done
   with End_of_file -> ());
  flush ()
